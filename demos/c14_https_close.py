"""D27: the HTTP relay closes its HTTPS connection outside its timeout.

An HTTPS endpoint answers 200 and then keeps the connection open without ever
answering the TLS shutdown.  HttpRelayClient._run ends with conn.close() ->
SSLSocket.unwrap(), which waits for the peer for ever: the client greenlet
never finishes, keeps its slot of the relay pool, and with pool_size=1 the
next delivery attempt is never served although timeout=0.3.

usage: c14_https_close.py [repo]   exit 0 = second attempt is served
"""
import os
import subprocess
import sys
import tempfile
sys.path.insert(0, sys.argv[1] if len(sys.argv) > 1 else '/repo')
import gevent
from gevent import ssl
from gevent.server import StreamServer
from slimta.relay.http import HttpRelay
from slimta.envelope import Envelope

tmp = tempfile.mkdtemp()
key, crt = os.path.join(tmp, 'k.pem'), os.path.join(tmp, 'c.pem')
subprocess.check_call(
    ['openssl', 'req', '-x509', '-newkey', 'rsa:2048', '-nodes', '-keyout',
     key, '-out', crt, '-days', '1', '-subj', '/CN=localhost'],
    stdout=subprocess.DEVNULL, stderr=subprocess.DEVNULL)
sctx = ssl.SSLContext(ssl.PROTOCOL_TLS_SERVER)
sctx.load_cert_chain(crt, key)
keep = []


def serve(sock, addr):
    s = sctx.wrap_socket(sock, server_side=True)
    keep.append(s)
    buf = b''
    while b'\r\n\r\n' not in buf:
        buf += s.recv(4096)
    s.sendall(b'HTTP/1.1 200 OK\r\nContent-Length: 0\r\n'
              b'X-Smtp-Reply: 250; message="2.6.0 ok"\r\n\r\n')
    gevent.sleep(60)        # never closes, never answers close_notify


srv = StreamServer(('127.0.0.1', 0), serve)
srv.start()
cctx = ssl.SSLContext(ssl.PROTOCOL_TLS_CLIENT)
cctx.check_hostname = False
cctx.verify_mode = ssl.CERT_NONE
relay = HttpRelay('https://127.0.0.1:%d/' % srv.server_port, pool_size=1,
                  context=cctx, timeout=0.3)


def mk():
    e = Envelope('s@x.test', ['r@y.test'])
    e.parse(b'Subject: x\r\n\r\nbody\r\n')
    return e


r1 = relay.attempt(mk(), 0)
print('first attempt :', r1.code if r1 else r1)
r2 = None
with gevent.Timeout(3, False):
    r2 = relay.attempt(mk(), 0)
print('second attempt:', r2.code if r2 else 'never served (pool slot held by '
      'a client stuck in conn.close())')
ok = r2 is not None
print('PASS' if ok else 'FAIL')
sys.exit(0 if ok else 1)
