"""C11: an HTTP next hop refuses with 5xx and names the command.

The fake next hop answers every POST with `500` and
`X-Smtp-Reply: 550; message="5.1.1 no such user" command="RCPT"` - what
slimta's own WsgiEdge writes when the refusal carries a command.  The real
HttpRelay delivers to it.  Expected by C11: a permanent failure carrying the
550.  On the defective tree SmtpRelayError calls .decode() on the str command,
the AttributeError is caught by the client's catch-all and the attempt is
reported as TransientRelayError("Delivery failed: ...") - a 5xx outcome
retried as transient.

exit 0 = permanent 550 reported, exit 1 = defect shown.
"""
import sys
sys.path.insert(0, sys.argv[1] if len(sys.argv) > 1 else '/repo')

import gevent
from gevent.pywsgi import WSGIServer

from slimta.envelope import Envelope
from slimta.relay import PermanentRelayError, TransientRelayError
from slimta.relay.http import HttpRelay

HEADERS = {'with command': '550; message="5.1.1 no such user" command="RCPT"',
           'without command': '550; message="5.1.1 no such user"'}
which = ['with command']


def app(environ, start_response):
    environ['wsgi.input'].read()
    start_response('500 Internal Server Error',
                   [('X-Smtp-Reply', HEADERS[which[0]]),
                    ('Content-Length', '0')])
    return [b'']


def main():
    server = WSGIServer(('127.0.0.1', 0), app, log=None, error_log=None)
    server.start()
    relay = HttpRelay('http://127.0.0.1:%d/' % server.server_port,
                      timeout=5.0)
    bad = 0
    for name in ('without command', 'with command'):
        which[0] = name
        env = Envelope('sender@example.com', ['rcpt@example.com'])
        env.parse(b'From: sender@example.com\r\n\r\nhello\r\n')
        try:
            with gevent.Timeout(10.0):
                res = relay.attempt(env, 0)
        except (PermanentRelayError, TransientRelayError) as exc:
            res = exc
        ok = isinstance(res, PermanentRelayError) and \
            getattr(res.reply, 'code', None) == '550'
        print('%-16s -> %s: %s%s' % (name, type(res).__name__, res,
                                     '' if ok else '   <-- not the 550'))
        bad += not ok
    server.stop()
    print('FAIL' if bad else 'PASS')
    return 1 if bad else 0


if __name__ == '__main__':
    sys.exit(main())
