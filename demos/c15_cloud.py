"""Demonstration of the C15 defects found by rules I2 (dict unpacked as a
tuple in SimpleStorageService.list_messages) and I3 (KeyError on the first
increment_attempts of a fresh message in CloudStorage).  boto is not
installed; a minimal in-memory stand-in for its Key / bucket objects is
injected so that the REAL slimta.cloudstorage code runs unchanged."""
import sys
import types
sys.path.insert(0, '/repo')

boto = types.ModuleType('boto')
s3 = types.ModuleType('boto.s3')
keymod = types.ModuleType('boto.s3.key')
sqs = types.ModuleType('boto.sqs')
msgmod = types.ModuleType('boto.sqs.message')


class Key(object):
    def __init__(self, bucket):
        self.bucket = bucket
        self.key = None
        self.meta = {}
        self.data = None

    def set_metadata(self, k, v):
        self.meta[k] = v

    def get_metadata(self, k):
        return self.meta.get(k)

    def set_contents_from_string(self, s):
        self.data = s
        self.bucket.keys[self.key] = self

    def get_contents_as_string(self):
        return self.data

    def delete(self):
        self.bucket.keys.pop(self.key, None)


class Bucket(object):
    def __init__(self):
        self.keys = {}

    def get_key(self, k):
        return self.keys.get(getattr(k, 'key', k))

    def list(self, prefix):
        return [k for k in self.keys if k.startswith(prefix)]


keymod.Key = Key
msgmod.Message = object
for name, mod in [('boto', boto), ('boto.s3', s3), ('boto.s3.key', keymod),
                  ('boto.sqs', sqs), ('boto.sqs.message', msgmod)]:
    sys.modules[name] = mod

from slimta.cloudstorage import CloudStorage
from slimta.cloudstorage.aws import SimpleStorageService
from slimta.envelope import Envelope

env = Envelope('s@x', ['r@y'])
env.parse(b'Subject: t\r\n\r\nbody\r\n')
store = CloudStorage(SimpleStorageService(Bucket()))
id = store.write(env, 1234.5)
for what, fn in [('I3 increment_attempts on a fresh message',
                  lambda: store.increment_attempts(id)),
                 ('I2 load() of one stored message',
                  lambda: list(store.load()))]:
    try:
        print(what, '->', fn())
    except Exception as exc:
        print(what, '-> raises %s: %s' % (type(exc).__name__, exc))
