"""Demonstration against the real Queue of the C12 defects found by rules Q1
(flush() blocks on a started queue) and Q2 (flush() leaves stale queued_ids,
so the flushed message cannot be re-queued after a transient failure and is
forgotten)."""
import sys
import gevent
sys.path.insert(0, '/repo')
from slimta.queue import Queue
from slimta.queue.dict import DictStorage
from slimta.envelope import Envelope
from slimta.relay import Relay, TransientRelayError


class AlwaysLater(Relay):
    def attempt(self, envelope, attempts):
        raise TransientRelayError('later')


def env():
    e = Envelope('s@x', ['r@y'])
    e.parse(b'Subject: t\r\n\r\nbody\r\n')
    return e


if __name__ == '__main__':
    q = Queue(DictStorage(), AlwaysLater(), backoff=lambda e, a: 3600)
    q.start()
    q.enqueue(env())
    gevent.sleep(0.2)
    t = gevent.Timeout(2)
    t.start()
    try:
        q.flush()
        print('Q1 flush() on a started queue: returned')
    except gevent.Timeout:
        print('Q1 flush() on a started queue: still blocked after 2 s')
    finally:
        t.cancel()
    q.kill()

    store = DictStorage()
    q = Queue(store, AlwaysLater(), backoff=lambda e, a: 3600)
    q.enqueue(env())
    gevent.sleep(0.2)            # first attempt fails, message re-queued
    print('Q2 before flush: stored=%d scheduled=%d' % (len(store.env_db),
                                                       len(q.queued)))
    q.flush()
    gevent.sleep(0.2)            # flushed attempt fails transiently again
    print('Q2 after flush + failed attempt: stored=%d scheduled=%d '
          'in_flight=%d  -> %s' % (
              len(store.env_db), len(q.queued), len(q.active_ids),
              'FORGOTTEN' if store.env_db and not q.queued and
              not q.active_ids else 'still scheduled'))
