"""D30: a delivered message is attempted (and bounced / delivered) a second
time when its id is announced between "removal started" and "removal done".

Queue._remove spawned store.remove and dropped the id from active_ids at once.
Until the removal greenlet ran, the message was still in storage and no longer
marked: the start-up load() (or a wait() announcement) arriving in that window
put it back on the timetable and _dequeue started a second attempt of a
message whose recipients were all settled.

The storage here is a DictStorage whose remove() takes a moment (as disk /
redis / S3 removals do) and whose load() is slow to start, as on a start-up
with a large backlog.

usage: c03_remove_window.py [repo]     exit 0 = exactly one attempt
"""
import sys
sys.path.insert(0, sys.argv[1] if len(sys.argv) > 1 else '/repo')
import gevent
from slimta.queue import Queue
from slimta.queue.dict import DictStorage
from slimta.relay import Relay
from slimta.envelope import Envelope


class SlowStore(DictStorage):
    def remove(self, id):
        gevent.sleep(0.05)            # the removal takes a while
        super(SlowStore, self).remove(id)

    def load(self):
        gevent.sleep(0.02)            # listing starts a little later
        for entry in super(SlowStore, self).load():
            yield entry


class Accept(Relay):
    def __init__(self):
        super(Accept, self).__init__()
        self.attempts = []

    def attempt(self, env, attempts):
        self.attempts.append(list(env.recipients))
        return None


relay = Accept()
store = SlowStore()
q = Queue(store, relay)
q.start()
env = Envelope('s@x.test', ['r@y.test'])
env.parse(b'Subject: x\r\n\r\nbody\r\n')
q.enqueue(env)
gevent.sleep(0.5)
print('attempts:', relay.attempts, '| still stored:', len(store.env_db))
ok = len(relay.attempts) == 1
print('PASS' if ok else 'FAIL: the delivered recipient was attempted again')
sys.exit(0 if ok else 1)
