"""Demonstrations (real subprocesses) of the pipe-relay defects found by C11
rules N1 (failure object returned instead of raised => the queue treats it as
success and deletes the message) and N6 (bytes output compared with str /
put undecoded into a Reply => TypeError instead of a relay error)."""
import sys
sys.path.insert(0, '/repo')
from slimta.relay.pipe import PipeRelay, MaildropRelay, DovecotLdaRelay
from slimta.relay import RelayError
from slimta.envelope import Envelope
from slimta.queue import Queue
from slimta.queue.dict import DictStorage
import gevent


def env():
    e = Envelope('sender@example.com', ['rcpt@example.com'])
    e.parse(b'From: sender@example.com\r\n\r\ntest\r\n')
    return e


class OneShot(PipeRelay):
    per_recipient = False


def outcome(relay):
    try:
        return 'returned %r' % (relay.attempt(env(), 0),)
    except RelayError as exc:
        return 'raised %s' % type(exc).__name__
    except Exception as exc:
        return 'raised %s (not a relay error)' % type(exc).__name__


if __name__ == '__main__':
    print('N1 PipeRelay(per_recipient=False), exit 3 :',
          outcome(OneShot(['/bin/sh', '-c', 'echo 4.0.0 try later; exit 3'])))
    store = DictStorage()
    q = Queue(store, OneShot(['/bin/sh', '-c', 'exit 3']),
              backoff=lambda envelope, attempts: 60)
    q.enqueue(env())
    gevent.sleep(0.5)
    print('N1 message still stored after the failed attempt:',
          len(store.env_db) == 1)
    print('N6 MaildropRelay, exit 75               :',
          outcome(MaildropRelay(path='/bin/false')))
    print('N6 DovecotLdaRelay, exit 1 with output  :',
          outcome(DovecotLdaRelay(path='/bin/ls',
                                  extra_args=['/nonexistent'])))
