"""Demonstrations against the real Server of the C08 defects found by rules
R8.1 (buffered plaintext survives the TLS socket swap), R8.2 (open transaction
survives STARTTLS) and R8.5 (PLAIN accepted without TLS).  The TLS layer is
replaced by a context whose wrap_socket returns the same socket, so that the
buffer / state handling around the swap is observed in isolation."""
import sys
import base64
import gevent
from gevent import socket
sys.path.insert(0, '/repo')
from slimta.smtp.server import Server


class FakeContext(object):
    def wrap_socket(self, sock, server_side=True):
        return sock

    def session_stats(self):
        return {}


class H(object):
    def __init__(self):
        self.trace = []

    def EHLO(self, reply, ehlo_as):
        self.trace.append(('EHLO', ehlo_as))

    def AUTH(self, reply, creds):
        self.trace.append(('AUTH', creds.authcid))


def run(chunks, **kw):
    a, b = socket.socketpair()
    h = H()
    srv = Server(a, h, **kw)
    g = gevent.spawn(srv.handle)
    out = b''
    for c in chunks:
        b.sendall(c)
        gevent.sleep(0.05)
    b.settimeout(0.2)
    try:
        while True:
            d = b.recv(4096)
            if not d:
                break
            out += d
    except Exception:
        pass
    g.kill()
    return h.trace, out


if __name__ == '__main__':
    trace, out = run([b'EHLO x\r\n', b'STARTTLS\r\nEHLO injected\r\n'],
                     context=FakeContext())
    print('R8.1 pipelined bytes behind STARTTLS executed after handshake:',
          ('EHLO', 'injected') in trace)
    trace, out = run([b'EHLO x\r\n', b'MAIL FROM:<a@b>\r\n', b'STARTTLS\r\n',
                      b'RCPT TO:<c@d>\r\n'], context=FakeContext())
    last = out.strip().splitlines()[-1]
    print('R8.2 RCPT after STARTTLS without new EHLO/MAIL answered:', last)
    cred = base64.b64encode(b'\x00user\x00secret')
    trace, out = run([b'EHLO x\r\n', b'AUTH PLAIN ' + cred + b'\r\n'],
                     auth=True)
    print('R8.5 AUTH PLAIN on an unencrypted session reached the '
          'application:', ('AUTH', 'user') in trace,
          out.strip().splitlines()[-1])
