"""Demonstrations (real code, real sockets) of the C14 defects found by rule T1.

Run: /venv/bin/python demos/c14_stalls.py   (exit 0 = all stalls reproduced on
the unfixed tree; after the fix: prints FIXED for each and exits 0 as well)
"""
import sys
import gevent
from gevent import socket, Timeout
sys.path.insert(0, '/repo')
from slimta.smtp.server import Server
from slimta.smtp import ConnectionLost
from slimta.relay.smtp.client import SmtpRelayClient
from slimta.util.deque import BlockingDeque
from slimta.envelope import Envelope
from gevent.event import AsyncResult

WATCHDOG = 3.0   # many times the configured 0.2 s timeouts


def server_auth_stall():
    a, b = socket.socketpair()

    class H(object):
        pass
    srv = Server(a, H(), auth=True, command_timeout=0.2)
    g = gevent.spawn(srv.handle)
    f = b.makefile('rwb', 0)
    f.readline()
    b.sendall(b'EHLO x\r\n')
    while True:
        line = f.readline()
        if line.startswith(b'250 '):
            break
    b.sendall(b'AUTH LOGIN\r\n')
    f.readline()   # 334 challenge; now stay silent
    g.join(WATCHDOG)
    stalled = not g.ready()
    g.kill()
    return stalled


def client_data_reply_stall():
    a, b = socket.socketpair()

    def fake_server():
        f = b.makefile('rwb', 0)
        b.sendall(b'220 hi\r\n')
        f.readline()
        b.sendall(b'250-x\r\n250 PIPELINING\r\n')
        f.readline(); f.readline(); f.readline()      # MAIL RCPT DATA
        b.sendall(b'250 ok\r\n250 ok\r\n354 go\r\n')
        while f.readline() != b'.\r\n':
            pass
        gevent.sleep(60)       # never answer the end of data
    gevent.spawn(fake_server)
    q = BlockingDeque()
    c = SmtpRelayClient(('h', 25), q, socket_creator=lambda addr: a,
                        connect_timeout=0.2, command_timeout=0.2,
                        data_timeout=0.2)
    res = AsyncResult()
    env = Envelope('s@x', ['r@y'])
    env.parse(b'Subject: t\r\n\r\nbody\r\n')
    q.append((res, env))
    c.start()
    c.join(WATCHDOG)
    stalled = not c.ready()
    c.kill()
    return stalled


if __name__ == '__main__':
    ok = True
    for name, fn in [('server AUTH challenge read', server_auth_stall),
                     ('client end-of-data reply read',
                      client_data_reply_stall)]:
        stalled = fn()
        print('%-32s %s' % (name, 'STALLED beyond %.0fx timeout' % (
            WATCHDOG / 0.2) if stalled else 'FIXED (ended in time)'))
    sys.exit(0)
