"""Demonstration (real Queue + real DiskStorage in a temp dir) of the two
known findings on delivered marks:

 (a) R1.5 / I5: Queue passes a *set* of indexes; DiskStorage (and redis /
     cloud likewise) does `current + rcpt_indexes` -> TypeError, the marks
     are never persisted, settled recipients are attempted again.
 (b) R3.4 / R1.6: even with list arguments the backends accumulate indexes
     that the queue computed on the *reduced* recipient list as if they were
     positions in the original list: after two partial rounds the wrong
     recipients are dropped.
"""
import sys
import shutil
import tempfile
import gevent
sys.path.insert(0, '/repo')
from slimta.queue import Queue
from slimta.diskstorage import DiskStorage
from slimta.envelope import Envelope
from slimta.relay import Relay, TransientRelayError


class ScriptedRelay(Relay):
    """a@x is accepted in round 1, c@x in round 2, b@x never."""
    def __init__(self):
        super(ScriptedRelay, self).__init__()
        self.calls = []

    def attempt(self, envelope, attempts):
        self.calls.append(list(envelope.recipients))
        ok = {0: 'a@x', 1: 'c@x'}.get(len(self.calls) - 1)
        return dict((r, None if r == ok else TransientRelayError('later'))
                    for r in envelope.recipients)


def main():
    tmp = tempfile.mkdtemp()
    try:
        import os
        for d in ('env', 'meta', 'tmp'):
            os.mkdir(os.path.join(tmp, d))
        store = DiskStorage(os.path.join(tmp, 'env'),
                            os.path.join(tmp, 'meta'),
                            os.path.join(tmp, 'tmp'))
        relay = ScriptedRelay()
        q = Queue(store, relay, backoff=lambda e, a: 0 if a < 3 else None,
                  bounce_factory=lambda e, r: None)
        q.start()
        env = Envelope('s@x', ['a@x', 'b@x', 'c@x'])
        env.parse(b'Subject: t\r\n\r\nbody\r\n')
        q.enqueue(env)
        gevent.sleep(1.0)
        q.kill()
        print('(a) recipient lists of successive attempts:', relay.calls)
        print('    a@x attempted again after it was delivered:',
              any('a@x' in c for c in relay.calls[1:]))
        # (b) the index-space history, driven through the storage API the
        # way the queue computes indexes (positions in the list get() gave)
        id = store.write(env, 0)
        e1, _ = store.get(id)
        store.set_recipients_delivered(id, [e1.recipients.index('a@x')])
        e2, _ = store.get(id)
        store.set_recipients_delivered(id, [e2.recipients.index('c@x')])
        e3, _ = store.get(id)
        print('(b) after delivering a@x then c@x the store returns',
              e3.recipients, '(expected [\'b@x\'])')
    finally:
        shutil.rmtree(tmp, ignore_errors=True)


if __name__ == '__main__':
    main()
