"""D29: whether a message is over the SIZE limit depends on how it was cut.

DataReader counted only bytes it read itself from the socket: body bytes that
arrived together with the DATA line (already in the command buffer) were free,
and bytes *after* the end-of-data line in the same read were charged to the
message.  The same client stream therefore gets 250 or 552 (and a different
callback trace) depending on its segmentation.

usage: c09_size_limit.py [repo]     exit 0 = same outcome for every segmentation
"""
import sys
sys.path.insert(0, sys.argv[1] if len(sys.argv) > 1 else '/repo')
from slimta.smtp.server import Server
from slimta.smtp import ConnectionLost


class FakeSock(object):
    def __init__(self, pieces):
        self.pieces = list(pieces)
        self.sent = b''

    def fileno(self):
        return -1

    def recv(self, n):
        return self.pieces.pop(0) if self.pieces else b''

    def sendall(self, data):
        self.sent += data

    def close(self):
        pass


class Handlers(object):
    def __init__(self):
        self.trace = []

    def HAVE_DATA(self, reply, data, err):
        self.trace.append(('HAVE_DATA', None if data is None else len(data),
                           type(err).__name__ if err else None))
        if err:
            reply.code = '552'
            reply.message = '5.3.4 too big'

    def MAIL(self, reply, address, params):
        self.trace.append(('MAIL', address))

    def QUIT(self, reply):
        self.trace.append(('QUIT',))


def run(pieces):
    sock = FakeSock(pieces)
    h = Handlers()
    srv = Server(sock, h)
    srv.extensions.add('SIZE', 100)
    try:
        srv.handle()
    except ConnectionLost:
        pass
    codes = [l[:3] for l in sock.sent.split(b'\r\n') if l]
    return codes, h.trace


def cuts(stream, mode):
    if mode == 'burst':
        return [stream]
    if mode == 'data|rest':
        k = stream.index(b'DATA\r\n') + 6
        return [stream[:k], stream[k:]]
    if mode == 'lines':
        return [l + b'\n' for l in stream.split(b'\n') if l]
    if mode == 'bytes':
        return [stream[i:i + 1] for i in range(len(stream))]
    n = int(mode)
    return [stream[i:i + n] for i in range(0, len(stream), n)]


head = b'EHLO x\r\nMAIL FROM:<a@b>\r\nRCPT TO:<c@d>\r\nDATA\r\n'
ok = True
for name, body, tail in (
        ('body of 120 bytes (over the limit of 100)',
         (b'x' * 28 + b'\r\n') * 4, b'QUIT\r\n'),
        ('body of 60 bytes followed by 80 bytes of pipelined commands',
         (b'y' * 28 + b'\r\n') * 2,
         b'RSET\r\n' * 10 + b'MAIL FROM:<e@f>\r\nQUIT\r\n')):
    stream = head + body + b'.\r\n' + tail
    outs = {}
    for mode in ('burst', 'data|rest', 'lines', 'bytes', '7', '64'):
        outs[mode] = run(cuts(stream, mode))
    distinct = {repr(v) for v in outs.values()}
    print(name)
    for mode, (codes, trace) in outs.items():
        print('  %-9s replies=%s  callbacks=%s' % (
            mode, b' '.join(codes).decode(), trace))
    if len(distinct) != 1:
        print('  -> outcome depends on the segmentation')
        ok = False
print('PASS' if ok else 'FAIL')
sys.exit(0 if ok else 1)
